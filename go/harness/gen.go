package main

// Input generators: grammar based (mostly valid), a malformed stream
// (mutations), hostile bytes, and bounded-exhaustive enumeration.
// Every random choice comes from the one PRNG in G.

import (
	"fmt"
	"math/rand"
	"strings"

	"github.com/intuitivelabs/sipsp"
)

type G struct{ r *rand.Rand }

func newG(seed int64) *G { return &G{rand.New(rand.NewSource(seed))} }

func (g *G) n(k int) int { return g.r.Intn(k) }
func (g *G) p(pct int) bool {
	return g.r.Intn(100) < pct
}
func (g *G) pick(xs ...string) string { return xs[g.r.Intn(len(xs))] }

const tokChars = "abcdefghijklmnopqrstuvwxyzABCDEFGHIJKLMNOPQRSTUVWXYZ0123456789-_.!~*'()%+"

func (g *G) tok(min, max int) string {
	n := min + g.n(max-min+1)
	var sb strings.Builder
	for i := 0; i < n; i++ {
		sb.WriteByte(tokChars[g.n(len(tokChars))])
	}
	return sb.String()
}
func (g *G) alnum(min, max int) string {
	n := min + g.n(max-min+1)
	var sb strings.Builder
	for i := 0; i < n; i++ {
		sb.WriteByte(tokChars[g.n(62)])
	}
	return sb.String()
}

// optional linear white space
func (g *G) ows() string {
	if g.p(60) {
		return ""
	}
	return g.lws()
}
func (g *G) lws() string {
	return g.pick(" ", "\t", "  ", " \t ", "\r\n ", "\r\n\t", " \r\n  ", "\n ", "\r ", " \n\t", "\r\n \r\n ")
}
func (g *G) sp() string { return g.pick(" ", " ", "\t", "  ") }
func (g *G) eol() string { return g.pick("\r\n", "\r\n", "\r\n", "\n", "\r") }

// end of a header value + the look-ahead the parsers need
func (g *G) eoh() string {
	return g.eol() + g.pick("X", "N: v\r\n", "\r\n", "\r\n\r\n", "a", ":")
}

func (g *G) quoted() string {
	var sb strings.Builder
	sb.WriteByte('"')
	n := g.n(8)
	for i := 0; i < n; i++ {
		switch g.n(10) {
		case 0:
			sb.WriteString("\\\"")
		case 1:
			sb.WriteString("\\\\")
		case 2:
			sb.WriteString(g.pick(" ", ",", ";", "<", ">", "=", "@", ":"))
		case 3:
			sb.WriteString("\\" + string(rune('a'+g.n(26))))
		default:
			sb.WriteString(g.alnum(1, 3))
		}
	}
	sb.WriteByte('"')
	return sb.String()
}

func (g *G) caseMix(s string) string {
	b := []byte(s)
	for i := range b {
		if g.p(40) {
			if b[i] >= 'a' && b[i] <= 'z' {
				b[i] -= 32
			} else if b[i] >= 'A' && b[i] <= 'Z' {
				b[i] += 32
			}
		}
	}
	return string(b)
}

func (g *G) digits() string {
	interesting := []string{"0", "1", "9", "00", "007", "255", "256", "65535", "65536", "16777215", "16777216",
		"16777217", "2147483647", "2147483648", "4294967295", "4294967296", "4294967297", "999999999",
		"1000000000", "9999999999", "10000000000", "5000000000", "42949672950", "42949672960",
		"9223372036854775807", "9223372036854775808", "18446744073709551615", "18446744073709551616",
		"18446744073709551617", "184467440737095516150", "36893488147419103232", "000000000000000000001",
		"0000000000", "00000000001", "99999999999999999999", "100000000000000000000",
		"340282366920938463463374607431768211456"}
	switch g.n(4) {
	case 0:
		return interesting[g.n(len(interesting))]
	case 1:
		s := interesting[g.n(len(interesting))]
		b := []byte(s)
		b[len(b)-1] = byte('0' + g.n(10))
		if g.p(30) {
			return "0" + string(b)
		}
		return string(b)
	case 2:
		n := 1 + g.n(40)
		var sb strings.Builder
		for i := 0; i < n; i++ {
			sb.WriteByte(byte('0' + g.n(10)))
		}
		return sb.String()
	default:
		return fmt.Sprint(g.n(100000))
	}
}

// ---- URIs -------------------------------------------------------------------
func (g *G) host() string {
	switch g.n(6) {
	case 0:
		return "[" + g.pick("::1", "2001:db8::1", "fe80::1:2", "1:2:3:4:5:6:7:8") + "]"
	case 1:
		return fmt.Sprintf("%d.%d.%d.%d", g.n(256), g.n(256), g.n(256), g.n(256))
	default:
		return g.alnum(1, 6) + g.pick("", ".com", ".example.org", "-x.net")
	}
}
func (g *G) uriParams(sep string) string {
	n := g.n(4)
	var sb strings.Builder
	names := []string{"transport", "lr", "maddr", "user", "method", "ttl", "x", "foo", "p1"}
	for i := 0; i < n; i++ {
		sb.WriteString(sep)
		nm := names[g.n(len(names))]
		if g.p(30) {
			nm = g.caseMix(nm)
		}
		sb.WriteString(nm)
		if g.p(70) {
			sb.WriteString("=" + g.pick("udp", "tcp", "phone", "1", "239.255.255.1", "INVITE", "a.b", g.alnum(1, 5)))
		}
	}
	return sb.String()
}
func (g *G) uriHdrs() string {
	n := 1 + g.n(3)
	var parts []string
	for i := 0; i < n; i++ {
		parts = append(parts, g.pick("subject", "priority", "to", "h"+g.alnum(1, 2))+"="+g.alnum(0, 5))
	}
	return "?" + strings.Join(parts, "&")
}
func (g *G) uri() string {
	var sb strings.Builder
	sch := g.pick("sip:", "sip:", "sips:", "tel:")
	if g.p(20) {
		sch = g.caseMix(sch)
	}
	sb.WriteString(sch)
	if sch == "tel:" || strings.EqualFold(sch, "tel:") {
		sb.WriteString(g.pick("+", "") + fmt.Sprint(1000+g.n(900000)))
		if g.p(30) {
			sb.WriteString(g.uriParams(";"))
		}
		return sb.String()
	}
	if g.p(70) {
		sb.WriteString(g.pick(g.alnum(1, 6), "a;b", "a?b", "u;p=1", "+1234", "a.b-c"))
		if g.p(30) {
			sb.WriteString(":" + g.pick(g.alnum(1, 5), "123", "p;w", "", "0065", "1", fmt.Sprint(g.n(70000))))
		}
		sb.WriteString("@")
	}
	sb.WriteString(g.host())
	if g.p(40) {
		sb.WriteString(":" + g.pick("5060", "5061", "0", "65535", "65536", "99999", "1", g.digits()))
	}
	if g.p(50) {
		sb.WriteString(g.uriParams(";"))
	}
	if g.p(25) {
		sb.WriteString(g.uriHdrs())
	}
	return sb.String()
}

// ---- name-addr values -------------------------------------------------------
func (g *G) hdrParams(known []string) string {
	n := g.n(4)
	var sb strings.Builder
	for i := 0; i < n; i++ {
		sb.WriteString(g.ows() + ";" + g.ows())
		nm := g.pick(known...)
		if g.p(30) {
			nm = g.caseMix(nm)
		}
		sb.WriteString(nm)
		lower := strings.ToLower(nm)
		if lower == "lr" && g.p(70) {
			continue
		}
		if g.p(85) {
			sb.WriteString(g.ows() + "=" + g.ows())
			switch lower {
			case "expires":
				sb.WriteString(g.pick("0", "60", "3600", "4294967295", "4294967296", g.digits()))
			case "q":
				sb.WriteString(g.pick("0", "1", "0.5", "0.25", "1.0", "1.000", "0.999", "1.001", "2", "0.1234",
					"18446744073709551616.5", "0.", ".5", "a", g.digits()))
			case "tag":
				sb.WriteString(g.tok(1, 10))
			default:
				if g.p(25) {
					sb.WriteString(g.quoted())
				} else {
					sb.WriteString(g.tok(0, 6))
				}
			}
		}
	}
	return sb.String()
}

var naParams = []string{"tag", "expires", "q", "lr", "x", "foo", "methods", "+sip.instance"}

func (g *G) nameAddr() string {
	var sb strings.Builder
	switch g.n(10) {
	case 0:
		return "*"
	case 1, 2, 3: // bare URI: its parameters are header parameters
		sb.WriteString(g.pick("sip:", "sips:") + g.pick(g.alnum(1, 5)+"@", "") + g.host() +
			g.pick("", ":5060"))
	default:
		switch g.n(4) {
		case 0:
			sb.WriteString(g.quoted() + g.ows())
		case 1:
			sb.WriteString(g.tok(1, 5) + g.lws())
			if g.p(30) {
				sb.WriteString(g.tok(1, 5) + g.ows())
			}
		}
		sb.WriteString("<" + g.uri() + ">")
	}
	sb.WriteString(g.hdrParams(naParams))
	return sb.String()
}
func (g *G) nameAddrList(max int) string {
	n := 1 + g.n(max)
	var parts []string
	for i := 0; i < n; i++ {
		parts = append(parts, g.nameAddr())
	}
	var sb strings.Builder
	for i, p := range parts {
		if i > 0 {
			sb.WriteString(g.ows() + "," + g.ows())
		}
		sb.WriteString(p)
	}
	return sb.String()
}

// ---- token parameter lists --------------------------------------------------
func (g *G) tokParamList(sep byte, hdrMode bool) string {
	n := g.n(5)
	var sb strings.Builder
	for i := 0; i < n; i++ {
		if i > 0 || g.p(20) {
			sb.WriteString(g.ows() + string(sep) + g.ows())
			if g.p(10) {
				sb.WriteString(string(sep)) // empty item
			}
		}
		sb.WriteString(g.pick("a", "branch", "transport", "lr", "maddr", "user", "method", "ttl", "TTL", "Lr",
			g.tok(1, 6)))
		if g.p(75) {
			sb.WriteString(g.ows() + "=" + g.ows())
			if g.p(20) && !hdrMode {
				sb.WriteString(g.quoted())
			} else if g.p(85) {
				sb.WriteString(g.pick("z9hG4bK"+g.alnum(1, 8), g.tok(1, 8), "[::1]", "a/b", "x:y", "$1"))
			}
		}
	}
	return sb.String()
}

// ---- messages ---------------------------------------------------------------
var methods = []string{"REGISTER", "INVITE", "ACK", "BYE", "PRACK", "CANCEL", "OPTIONS", "SUBSCRIBE", "NOTIFY",
	"UPDATE", "INFO", "REFER", "PUBLISH", "MESSAGE", "FOO", "invite", "INVITEX", "I"}

func (g *G) firstLine() string {
	if g.p(65) {
		return g.pick(methods...) + " " + g.pick(g.uri(), "sip:a@b", "*", g.tok(1, 8)) + " " +
			g.pick("SIP/2.0", "SIP/2.0", "sip/2.0", "SIP/3.0", g.tok(1, 7)) + g.eol()
	}
	return g.pick("SIP/2.0", "SIP/2.0", "sip/2.0", "Sip/2.0") + " " + fmt.Sprintf("%03d", g.n(1000)) + " " +
		g.pick("OK", "Ringing", "", "Not Found", "Busy Here  now", g.tok(0, 12)) + g.eol()
}

type hdrSpec struct {
	long, compact string
}

var knownHdrs = []hdrSpec{{"From", "f"}, {"To", "t"}, {"Call-ID", "i"}, {"CSeq", ""}, {"Via", "v"},
	{"Max-Forwards", ""}, {"Content-Length", "l"}, {"Contact", "m"}, {"Expires", ""}, {"User-Agent", ""},
	{"Record-Route", ""}, {"Route", ""}, {"P-Asserted-Identity", ""}}

func (g *G) hdrName(h hdrSpec) string {
	n := h.long
	if h.compact != "" && g.p(30) {
		n = h.compact
	}
	if g.p(25) {
		n = g.caseMix(n)
	}
	return n
}

func (g *G) via() string {
	return "SIP/2.0/" + g.pick("UDP", "TCP", "TLS") + " " + g.host() + g.pick("", ":5060") +
		g.pick(";branch=z9hG4bK"+g.alnum(1, 12), ";branch="+g.tok(1, 10), ";rport;branch=z9hG4bK"+g.alnum(4, 9), "",
			";received=1.2.3.4;branch=z9hG4bKabc-def.1")
}
func (g *G) callID() string {
	return g.pick(g.tok(1, 16), g.alnum(4, 10)+"@"+g.host(), fmt.Sprintf("%x-%x@1.2.3.4", g.n(1<<30), g.n(1<<30)),
		"10.0.0.1-"+g.alnum(3, 8), g.alnum(2, 5)+"-192.168.1.20-"+g.alnum(1, 4), "a.b.c.d", "1.2.3.4")
}

// value of a header of the given type (no terminator)
func (g *G) hdrValue(name string) string {
	switch strings.ToLower(name) {
	case "from", "f", "to", "t":
		return g.nameAddr()
	case "call-id", "i":
		return g.callID()
	case "cseq":
		return g.pick(fmt.Sprint(g.n(100000)), g.digits()) + g.lws() + g.pick(methods...)
	case "via", "v":
		return g.via()
	case "max-forwards":
		return fmt.Sprint(g.n(100))
	case "content-length", "l":
		return g.pick("0", fmt.Sprint(g.n(40)), g.digits())
	case "contact", "m", "route", "record-route", "p-asserted-identity":
		return g.nameAddrList(3)
	case "expires":
		return g.pick("0", "3600", g.digits())
	case "user-agent":
		return g.tok(1, 8) + g.pick("", " "+g.tok(1, 5), "/1.0 (x y)")
	}
	// generic: tokens separated by LWS
	n := g.n(4)
	var parts []string
	for i := 0; i < n; i++ {
		parts = append(parts, g.tok(1, 7))
	}
	return strings.Join(parts, g.lws())
}

func (g *G) hdrLine() (string, string) {
	var name string
	if g.p(6) { // a numeric header with a boundary value
		name = g.pick("Content-Length", "l", "CSeq", "Expires", "CONTENT-LENGTH")
		v := g.digits()
		if name == "CSeq" {
			v += g.pick(" ", "\t") + g.pick(methods...)
		}
		return name, name + ":" + g.pick("", " ") + v + g.pick("", " ") + g.eol()
	}
	if g.p(75) {
		name = g.hdrName(knownHdrs[g.n(len(knownHdrs))])
	} else {
		name = g.pick("X-"+g.tok(1, 6), "Subject", "Allow", "Fro", "Too", "Content-Lengt", "Vi", "x", g.tok(1, 10))
	}
	if g.p(8) { // an empty value
		return name, name + g.pick("", " ") + ":" + g.pick("", " ", "\t") + g.eol()
	}
	return name, name + g.pick("", "", " ", "\t ") + ":" + g.ows() + g.hdrValue(name) + g.pick("", "", " ", "\t") + g.eol()
}

// a message; bodyLen < 0: no Content-Length header
func (g *G) message() string {
	var sb strings.Builder
	sb.WriteString(g.firstLine())
	body := ""
	if g.p(60) {
		body = g.tok(0, 30)
	}
	n := 1 + g.n(9)
	hasCL := false
	clAt := -1
	if g.p(75) {
		clAt = g.n(n)
	}
	for i := 0; i < n; i++ {
		if i == clAt {
			decl := len(body)
			if g.p(15) {
				decl += g.n(5) - 2
				if decl < 0 {
					decl = 0
				}
			}
			ds := fmt.Sprint(decl)
			if g.p(6) {
				ds = g.digits()
			}
			sb.WriteString(g.hdrName(knownHdrs[6]) + ":" + g.ows() + ds + g.eol())
			hasCL = true
			continue
		}
		name, line := g.hdrLine()
		ln := strings.ToLower(name)
		if ln == "content-length" || ln == "l" {
			if hasCL || clAt >= 0 {
				continue
			}
		}
		sb.WriteString(line)
	}
	sb.WriteString(g.eol())
	sb.WriteString(body)
	if g.p(20) {
		sb.WriteString(g.pick("X", "\r\n", "INVITE sip:a@b SIP/2.0\r\n"))
	}
	return sb.String()
}

// a plain, always valid request (for signature / framing work)
func (g *G) request(method string, hdrs []string, body string) string {
	var sb strings.Builder
	sb.WriteString(method + " sip:" + g.alnum(1, 5) + "@" + g.host() + " SIP/2.0\r\n")
	for _, h := range hdrs {
		sb.WriteString(h + "\r\n")
	}
	sb.WriteString("\r\n" + body)
	return sb.String()
}

// ---- mutations --------------------------------------------------------------
var dict = []string{" ", "\t", "\r", "\n", "\r\n", "\r\n ", ",", ";", "=", "<", ">", "\"", "\\", ":", "@", "?", "&",
	"[", "]", "*", ".", "0", "9", "a", "\x00", "\x7f", "\xff", "%", "/", "(", ")"}

func (g *G) mutate(s string) string {
	b := []byte(s)
	k := 1 + g.n(3)
	for ; k > 0; k-- {
		if len(b) == 0 {
			b = append(b, dict[g.n(len(dict))]...)
			continue
		}
		p := g.n(len(b))
		d := dict[g.n(len(dict))]
		switch g.n(5) {
		case 0: // replace
			b = append(b[:p:p], append([]byte(d), b[p+1:]...)...)
		case 1: // insert
			b = append(b[:p:p], append([]byte(d), b[p:]...)...)
		case 2: // delete
			b = append(b[:p:p], b[p+1:]...)
		case 3: // truncate
			b = b[:p]
		case 4: // duplicate a slice
			q := p + g.n(len(b)-p)
			b = append(b[:q:q], append(append([]byte(nil), b[p:q]...), b[q:]...)...)
		}
	}
	return string(b)
}

func (g *G) hostile(max int) string {
	n := g.n(max + 1)
	b := make([]byte, n)
	for i := range b {
		if g.p(50) {
			b[i] = dict[g.n(len(dict))][0]
		} else {
			b[i] = byte(g.n(256))
		}
	}
	return string(b)
}

// all strings over alphabet of length 0..maxLen
func enumStrings(alphabet []string, maxLen int, f func(string)) {
	var rec func(prefix string, l int)
	rec = func(prefix string, l int) {
		f(prefix)
		if l == maxLen {
			return
		}
		for _, a := range alphabet {
			rec(prefix+a, l+1)
		}
	}
	rec("", 0)
}

// ---- schedules --------------------------------------------------------------
// cuts for a buffer of n bytes starting at offs: strictly increasing prefix
// lengths in (offs, n)
func (g *G) cuts(offs, n int) []int {
	if n-offs <= 1 {
		return nil
	}
	return g.cutsIn(offs, n, nil)
}

// cutsFor knows the text: a third of the schedules cut right after (or before) a byte that is
// special to the grammar (backslash, CR, LF, quote, separators, digits), with the whole text
// before it arriving in one piece
func (g *G) cutsFor(offs int, buf string) []int {
	if len(buf)-offs <= 1 {
		return nil
	}
	return g.cutsIn(offs, len(buf), []byte(buf))
}

func (g *G) cutsIn(offs, n int, buf []byte) []int {
	if buf != nil && g.p(35) {
		var cand []int
		for i := offs; i < n-1; i++ {
			switch buf[i] {
			case '\\', '\r', '\n', '"', ';', '=', ',', '<', '>', ':', ' ', '\t', '@', '?', '&', '*':
				cand = append(cand, i+1)
				if i > offs {
					cand = append(cand, i)
				}
			}
		}
		if len(cand) > 0 {
			c := cand[g.n(len(cand))]
			if g.p(30) && c+1 < n {
				return []int{c, c + 1}
			}
			return []int{c}
		}
	}
	switch g.n(4) {
	case 0: // every byte
		var c []int
		for i := offs + 1; i < n; i++ {
			c = append(c, i)
		}
		return c
	case 1: // one cut
		return []int{offs + 1 + g.n(n-offs-1)}
	default:
		var c []int
		k := 1 + g.n(6)
		last := offs
		for i := 0; i < k; i++ {
			if n-last <= 1 {
				break
			}
			last = last + 1 + g.n(n-last-1)
			c = append(c, last)
		}
		return c
	}
}

// ---- per-kind inputs ---------------------------------------------------------
type Input struct {
	Kind    int
	A, B, C int
	Flags   uint
	Buf     string
	Offs    int
}

var naHdrs = []int{int(sipsp.HdrFrom), int(sipsp.HdrTo), int(sipsp.HdrContact), int(sipsp.HdrPAI),
	int(sipsp.HdrRoute), int(sipsp.HdrRecordRoute)}

var tpFlagSets = []uint{
	uint(sipsp.POptParamSemiSepF),
	uint(sipsp.POptParamSemiSepF | sipsp.POptTokCommaTermF),
	uint(sipsp.POptParamSemiSepF | sipsp.POptTokCommaTermF | sipsp.POptInputEndF),
	uint(sipsp.POptParamSemiSepF | sipsp.POptTokSpTermF),
	uint(sipsp.POptParamSemiSepF | sipsp.POptTokQmTermF),
	uint(sipsp.POptParamSemiSepF | sipsp.POptTokURIParamF),
	uint(sipsp.POptParamSemiSepF | sipsp.POptTokURIParamF | sipsp.POptInputEndF),
	uint(sipsp.POptParamAmpSepF | sipsp.POptTokURIHdrF),
	uint(sipsp.POptParamAmpSepF | sipsp.POptTokURIHdrF | sipsp.POptInputEndF),
	uint(sipsp.POptParamAmpSepF | sipsp.POptTokSpTermF | sipsp.POptInputEndF),
	uint(sipsp.POptParamSemiSepF | sipsp.POptTokSpTermF | sipsp.POptTokCommaTermF),
}

// valid-ish text for one kind (without prefix junk)
func (g *G) textFor(in *Input) string {
	switch in.Kind {
	case kFLine:
		return g.firstLine() + g.pick("", "V", "Via: x\r\n")
	case kCallID:
		return g.ows() + g.callID() + g.pick("", " ", "\t") + g.eoh()
	case kCSeq:
		return g.ows() + g.pick(fmt.Sprint(g.n(1000)), g.digits()) + g.lws() + g.pick(methods...) + g.ows() + g.eoh()
	case kUInt, kCLen:
		return g.ows() + g.pick(fmt.Sprint(g.n(70000)), g.digits()) + g.ows() + g.eoh()
	case kNameAddr, kOnePAI:
		if g.p(25) {
			return g.ows() + g.nameAddrList(3) + g.ows() + g.eoh()
		}
		return g.ows() + g.nameAddr() + g.ows() + g.eoh()
	case kContacts, kPAIs:
		return g.ows() + g.nameAddrList(4) + g.ows() + g.eoh()
	case kTokParam, kURIParams, kURIHdrs:
		f := in.Flags
		if in.Kind == kURIParams {
			f |= uint(sipsp.POptParamSemiSepF)
		}
		if in.Kind == kURIHdrs {
			f |= uint(sipsp.POptParamAmpSepF | sipsp.POptTokURIHdrF)
		}
		sep := byte(';')
		if f&uint(sipsp.POptParamAmpSepF|sipsp.POptTokURIHdrF) != 0 {
			sep = '&'
		}
		s := g.tokParamList(sep, f&uint(sipsp.POptTokURIHdrF) != 0)
		end := ""
		switch {
		case f&uint(sipsp.POptTokQmTermF|sipsp.POptTokURIParamF) != 0 && g.p(50):
			end = "?h=1"
		case f&uint(sipsp.POptTokCommaTermF) != 0 && g.p(50):
			end = g.ows() + "," + g.pick(" next", "x")
		case f&uint(sipsp.POptTokSpTermF) != 0 && g.p(50):
			end = g.lws() + "tok"
		}
		if f&uint(sipsp.POptInputEndF) != 0 && g.p(60) {
			return s + end
		}
		return s + end + g.pick(g.eoh(), g.eoh(), "", " ")
	case kQuoted:
		q := g.quoted()
		return q[1:] + g.pick("", "x", ";")
	case kHdrLine:
		_, l := g.hdrLine()
		return l + g.pick("X", "\r\n", "N: v\r\n", "")
	case kHeaders:
		n := 1 + g.n(8)
		var sb strings.Builder
		for i := 0; i < n; i++ {
			_, l := g.hdrLine()
			sb.WriteString(l)
		}
		sb.WriteString(g.eol() + g.pick("", "body", "\r\n"))
		return sb.String()
	case kMsg:
		return g.message()
	}
	return ""
}

func (g *G) paramsFor(in *Input) {
	switch in.Kind {
	case kNameAddr:
		in.A = naHdrs[g.n(len(naHdrs))]
	case kContacts:
		in.A = g.n(5)
	case kTokParam:
		in.Flags = tpFlagSets[g.n(len(tpFlagSets))]
	case kURIParams:
		in.A = g.n(5)
		in.Flags = []uint{0, uint(sipsp.POptInputEndF), uint(sipsp.POptTokURIParamF), uint(sipsp.POptTokURIParamF | sipsp.POptInputEndF),
			uint(sipsp.POptTokQmTermF), uint(sipsp.POptTokSpTermF)}[g.n(6)]
	case kURIHdrs:
		in.A = g.n(5)
		in.Flags = []uint{0, uint(sipsp.POptInputEndF), uint(sipsp.POptTokSpTermF), uint(sipsp.POptTokCommaTermF | sipsp.POptInputEndF)}[g.n(4)]
	case kHdrLine:
		in.A = g.n(2)
		in.B = g.n(4)
	case kHeaders:
		in.A = g.n(12)
		in.B = g.n(3) / 2 // mostly with PHdrVals? no: 0,0,1 -> flip below
		in.B = 1 - in.B
		in.C = g.n(4)
	case kMsg:
		in.A = []int{-1, -1, 0, 1, 3, 20}[g.n(6)]
		in.B = []int{-1, -1, 0, 1, 3}[g.n(5)]
		in.Flags = uint(g.n(8))
	}
}

// one input of the given kind: style 0 = valid-ish, 1 = mutated, 2 = hostile
func (g *G) input(kind int) Input {
	in := Input{Kind: kind}
	g.paramsFor(&in)
	t := ""
	switch r := g.n(100); {
	case r < 60:
		t = g.textFor(&in)
	case r < 92:
		t = g.mutate(g.textFor(&in))
	default:
		t = g.hostile(40)
	}
	if g.p(25) {
		junk := g.hostile(6)
		in.Offs = len(junk)
		t = junk + t
	}
	in.Buf = t
	return in
}

var allKinds = []int{kFLine, kCallID, kCSeq, kUInt, kCLen, kNameAddr, kOnePAI, kContacts, kPAIs, kTokParam,
	kURIParams, kURIHdrs, kQuoted, kHdrLine, kHeaders, kMsg}
var subKinds = allKinds[:len(allKinds)-1]
