#!/bin/sh
# MANIFEST.setup_cmd: build everything from files on disk (offline)
cd "$(dirname "$0")" && exec ./check --setup
